package rules

import (
	"fmt"
	"go/token"
	"go/types"
	"sort"
	"strings"

	"golang.org/x/tools/go/ssa"

	"verif/internal/core"
)

// ---------------------------------------------------------------------------
// R26: belief contradictions
// ---------------------------------------------------------------------------

// constBoolFunc: every return of fn yields the same boolean constant.
func constBoolFunc(fn *ssa.Function) (bool, bool) {
	res := fn.Signature.Results()
	if res.Len() != 1 || !isBoolType(res.At(0).Type()) {
		return false, false
	}
	var val *bool
	for _, r := range returnsIn(fn) {
		for _, v := range returnValues(r.Results[0]) {
			b, ok := core.ConstBool(v)
			if !ok {
				return false, false
			}
			if val == nil {
				val = &b
			} else if *val != b {
				return false, false
			}
		}
	}
	if val == nil {
		return false, false
	}
	return *val, true
}

func R26() Rule {
	return Rule{Name: "R26", Run: func(c *core.Ctx) {
		P := c.P
		// (a) a function that always returns the same boolean while a caller branches on the result
		nBranching := 0
		for _, fn := range P.SrcFuncs(core.PkgBttest) {
			for _, ci := range core.AllCalls(fn) {
				call, ok := ci.Instr.(*ssa.Call)
				if !ok || ci.Static == nil || !inRepo(P, ci.Static) {
					continue
				}
				res := ci.Static.Signature.Results()
				if res.Len() != 1 || !isBoolType(res.At(0).Type()) {
					continue
				}
				branches := false
				for _, r := range core.Referrers(call) {
					switch x := r.(type) {
					case *ssa.If:
						branches = true
					case *ssa.UnOp:
						for _, rr := range core.Referrers(x) {
							if _, ok := rr.(*ssa.If); ok {
								branches = true
							}
						}
					}
				}
				if !branches {
					continue
				}
				nBranching++
				construct := fmt.Sprintf("a/%s/branch-on-%s", core.FuncName(fn), core.FuncName(ci.Static))
				if v, isConst := constBoolFunc(ci.Static); isConst {
					c.Bad("R26", construct, call.Pos(), "%s always returns %v, yet this caller branches on the result (e.g. counting rows against rows_limit): one of the two is wrong", core.FuncName(ci.Static), v)
				} else {
					c.Ok("R26", construct, call.Pos(), true, "the callee's result is not constant")
				}
			}
		}
		if nBranching < 2 {
			c.Unknown("R26", "floor/a", token.NoPos, "only %d branch-on-bool-result call sites found", nBranching)
		}
		// (b) len() of a slice that was just truncated to zero in the same block
		nArith := 0
		for _, fn := range P.SrcFuncs(core.PkgBttest) {
			k := 0
			for _, b := range fn.Blocks {
				zero := map[string]bool{}
				for _, in := range b.Instrs {
					switch x := in.(type) {
					case *ssa.Store:
						if fa, ok := x.Addr.(*ssa.FieldAddr); ok {
							key := fieldLoadKey(&ssa.UnOp{Op: token.MUL, X: fa})
							z := false
							if sl, ok := core.Resolve(x.Val).(*ssa.Slice); ok && sl.High != nil {
								if h, ok := core.ConstInt(sl.High); ok && h == 0 {
									z = true
								}
							}
							zero[key] = z
						}
					case *ssa.BinOp:
						if x.Op != token.SUB && x.Op != token.ADD {
							continue
						}
						for _, opnd := range []ssa.Value{x.X, x.Y} {
							la := lenArg(opnd)
							if la == nil {
								continue
							}
							nArith++
							key := fieldLoadKey(core.Resolve(la))
							if key != "" && zero[key] {
								k++
								c.Bad("R26", fmt.Sprintf("b/%s/len-of-truncated#%d", core.FuncName(fn), k), x.Pos(), "arithmetic uses len() of a slice that was truncated to zero length just above, i.e. adds/subtracts a statically zero value: the intended count is lost")
							}
						}
					}
				}
			}
		}
		c.Ok("R26", "b/len-arithmetic-scan", token.NoPos, true, "%d additions/subtractions of a len() inspected; none on a slice truncated to zero in the same block", nArith)
		if nArith < 2 {
			c.Unknown("R26", "floor/b", token.NoPos, "only %d len() arithmetic sites found", nArith)
		}
	}}
}

// ---------------------------------------------------------------------------
// R28: order and uniqueness invariants of the row structure
// ---------------------------------------------------------------------------

func isCellsField(fa *ssa.FieldAddr) bool {
	_, f, _ := core.FieldName(fa)
	return f == "Cells" && core.TypeIs(fa.X.Type(), pkgBtpb, "Column")
}

// cellsLeaves walks a value stored into Column.Cells back to its producers.
func cellsLeaves(v ssa.Value, seen map[ssa.Value]bool, out *[]ssa.Value) {
	v = core.Strip(v)
	if seen[v] {
		return
	}
	seen[v] = true
	switch x := v.(type) {
	case *ssa.Phi:
		for _, e := range x.Edges {
			cellsLeaves(e, seen, out)
		}
		return
	case *ssa.Slice:
		cellsLeaves(x.X, seen, out) // reslice keeps order
		return
	case *ssa.Extract:
		if call, ok := x.Tuple.(*ssa.Call); ok && x.Index == 0 {
			if !cellsThroughHelper(call, seen, out) {
				*out = append(*out, call)
			}
			return
		}
	case *ssa.Call:
		if cellsThroughHelper(x, seen, out) {
			return
		}
	case *ssa.UnOp:
		if x.Op == token.MUL {
			if cell := core.CellOf(x.X); cell != nil {
				for _, st := range core.StoresTo(cell) {
					cellsLeaves(st.Val, seen, out)
				}
				return
			}
		}
	}
	*out = append(*out, v)
}

// cellsOrderKeepers: helpers whose result is judged as a whole (R28's producer table).
var cellsOrderKeepers = map[string]bool{"appendOrReplaceCell": true, "filterCells": true, "applyGC": true}

// cellsThroughHelper: the cells come out of an in-package helper that is not in the
// producer table (e.g. an extracted "delete cells in range"): look at what it returns —
// reslices / compactions of a parameter continue with the caller's argument, anything
// else is a leaf to be judged like a local value.
func cellsThroughHelper(call *ssa.Call, seen map[ssa.Value]bool, out *[]ssa.Value) bool {
	g := call.Call.StaticCallee()
	if g == nil || g.Blocks == nil || core.PkgPathOf(g) != core.PkgBttest || cellsOrderKeepers[core.FuncName(g)] || len(seen) > 200 {
		return false
	}
	var inner []ssa.Value
	for _, r := range returnsIn(g) {
		if len(r.Results) == 0 {
			return false
		}
		for _, rv := range returnValues(r.Results[0]) {
			cellsLeaves(rv, seen, &inner)
		}
	}
	for _, lf := range inner {
		if pa, ok := lf.(*ssa.Parameter); ok && pa.Parent() == g {
			for i, q := range g.Params {
				if q == pa && i < len(call.Call.Args) {
					cellsLeaves(call.Call.Args[i], seen, out)
				}
			}
			continue
		}
		*out = append(*out, lf)
	}
	return true
}

func R28() Rule {
	return Rule{Name: "R28", Run: func(c *core.Ctx) {
		P := c.P
		allowedCalls := map[string]string{
			"appendOrReplaceCell": "re-sorts and replaces an equal timestamp",
			"filterCells":         "order-preserving subsequence",
			"applyGC":             "prefix of a descending slice",
		}
		nStores := 0
		for _, fn := range P.SrcFuncs(core.PkgBttest) {
			k := 0
			for _, b := range fn.Blocks {
				for _, in := range b.Instrs {
					st, ok := in.(*ssa.Store)
					if !ok {
						continue
					}
					fa, ok := st.Addr.(*ssa.FieldAddr)
					if !ok || !isCellsField(fa) {
						continue
					}
					nStores++
					k++
					c.Fn(core.FuncName(fn))
					construct := fmt.Sprintf("a/%s/store-Cells#%d", core.FuncName(fn), k)
					var leaves []ssa.Value
					cellsLeaves(st.Val, map[ssa.Value]bool{}, &leaves)
					bad := ""
					var why []string
					for _, lf := range leaves {
						switch x := lf.(type) {
						case *ssa.Const:
							if x.Value == nil {
								why = append(why, "nil")
								continue
							}
						case *ssa.UnOp:
							if fa2, ok := x.X.(*ssa.FieldAddr); ok && isCellsField(fa2) {
								why = append(why, "existing cells (already ordered)")
								continue
							}
						case *ssa.Alloc:
							// one-element literal array
							if arr, ok := x.Type().(*types.Pointer).Elem().Underlying().(*types.Array); ok && arr.Len() <= 1 {
								why = append(why, "fresh literal of at most one cell")
								continue
							}
						case *ssa.Call:
							if sc := x.Call.StaticCallee(); sc != nil && sc.Pkg != nil && sc.Pkg.Pkg.Path() == core.PkgBttest {
								if r, ok := allowedCalls[core.FuncName(sc)]; ok {
									why = append(why, core.FuncName(sc)+": "+r)
									continue
								}
							}
							if bi, ok := x.Call.Value.(*ssa.Builtin); ok && bi.Name() == "append" {
								// append(<empty literal>, existing...) is a copy; anything else needs a sort afterwards
								base := core.Strip(x.Call.Args[0])
								isEmptyLit := false
								if sl, ok := base.(*ssa.Slice); ok {
									if a, ok := sl.X.(*ssa.Alloc); ok {
										if arr, ok := a.Type().(*types.Pointer).Elem().Underlying().(*types.Array); ok && arr.Len() == 0 {
											isEmptyLit = true
										}
									}
								}
								if cst, ok := base.(*ssa.Const); ok && cst.Value == nil {
									isEmptyLit = true
								}
								if isEmptyLit {
									why = append(why, "copy of an existing cell slice")
									continue
								}
								// must be followed by sort.Sort(byDescTS(<same field>)) before the function ends
								sorted := false
								// the sort order is the descending-timestamp comparator: the receiver type of the
								// (possibly renamed) byDescTS.Less anchor, checked for direction in part (b)
								descT := types.Type(nil)
								if lf := P.Func(core.PkgBttest, "byDescTS.Less"); lf != nil && lf.Signature.Recv() != nil {
									descT = lf.Signature.Recv().Type()
								}
								isDescSort := func(call *ssa.Call) bool {
									if !core.Call(call).IsFunc("sort", "Sort") {
										return false
									}
									mi, ok := call.Call.Args[0].(*ssa.MakeInterface)
									return ok && descT != nil && types.Identical(mi.X.Type(), descT)
								}
								for _, ci := range core.AllCalls(fn) {
									call, isCall := ci.Instr.(*ssa.Call)
									if !isCall || !core.InstrReaches(st, call) {
										continue
									}
									if isDescSort(call) {
										sorted = true
									}
									// … or a sorting helper of the package (`sortCellsDescending(cs)`): its body sorts one of its parameters
									if g := ci.Static; g != nil && g.Blocks != nil && core.PkgPathOf(g) == core.PkgBttest {
										for _, gc := range core.AllCalls(g) {
											if inner, isC := gc.Instr.(*ssa.Call); isC && isDescSort(inner) {
												if _, isParam := core.Resolve(inner.Call.Args[0].(*ssa.MakeInterface).X).(*ssa.Parameter); isParam {
													sorted = true
												}
											}
										}
									}
								}
								if sorted {
									why = append(why, "concatenation followed by sort.Sort(byDescTS)")
									continue
								}
								bad = "a plain append that is not followed by sort.Sort(byDescTS(...))"
								continue
							}
						}
						if bad == "" {
							bad = fmt.Sprintf("a value of unknown order (%T)", lf)
						}
					}
					if bad != "" {
						c.Bad("R28", construct, st.Pos(), "Column.Cells is assigned from %s: the 'descending timestamps, one cell per timestamp' invariant the read path and sort.Search rely on is not re-established", bad)
					} else {
						c.Ok("R28", construct, st.Pos(), true, "%s", strings.Join(dedup(why), "; "))
					}
				}
			}
		}
		if nStores < 4 {
			c.Unknown("R28", "floor/stores", token.NoPos, "only %d stores to Column.Cells found", nStores)
		}
		// (b) comparator / search predicate agreement
		less := P.Func(core.PkgBttest, "byDescTS.Less")
		if less == nil {
			c.Unknown("R28", "b/byDescTS.Less", token.NoPos, "anchor gone")
		} else {
			ok, why := tsComparison(less, func(l, r ssa.Value, op token.Token) bool {
				li, ri := indexParam(l, less), indexParam(r, less)
				return (li == 1 && ri == 2 && op == token.GTR) || (li == 2 && ri == 1 && op == token.LSS)
			})
			c.Check(ok, "R28", "b/byDescTS.Less", less.Pos(), "Less(i,j) is cells[i].ts > cells[j].ts (descending)", "byDescTS.Less does not order by descending timestamp ("+why+"): newest-first reads, delete ranges and GC cut-offs all assume it")
		}
		nSearch := 0
		for _, fn := range P.SrcFuncs(core.PkgBttest) {
			for _, call := range callsTo(fn, "sort", "Search") {
				cl := closureOf(call.Call.Args[1])
				if cl == nil {
					continue
				}
				// only binary searches over a column's cells (the predicate reads a cell timestamp)
				readsTs := false
				for _, b := range cl.Blocks {
					for _, in := range b.Instrs {
						if v, isV := in.(ssa.Value); isV && isCellTs(v) {
							readsTs = true
						}
					}
				}
				if !readsTs {
					continue
				}
				nSearch++
				ok, why := tsComparison(cl, func(l, r ssa.Value, op token.Token) bool {
					lc, rc := isCellTs(l), isCellTs(r)
					return (lc && !rc && op == token.LSS) || (!lc && rc && op == token.GTR)
				})
				c.Check(ok, "R28", fmt.Sprintf("b/search-predicate/%s", core.FuncName(cl)), call.Pos(), "predicate is cells[i].ts < X: monotone on a descending slice", "the sort.Search predicate is not of the form cells[i].ts < X ("+why+"): on a descending slice the binary search returns an arbitrary index")
			}
		}
		if nSearch == 0 {
			c.Infof("R28", "b/searches", token.NoPos, "no binary search over a column's cells: the predicate direction has nothing to agree with")
		}
		// scrubFam sorts columns ascending by qualifier
		if sf := P.Func(core.PkgBttest, "scrubFam"); sf != nil {
			okQ := false
			for _, call := range callsTo(sf, "sort", "Slice") {
				if cl := closureOf(call.Call.Args[1]); cl != nil {
					for _, r := range returnsIn(cl) {
						if bin, ok := core.Resolve(r.Results[0]).(*ssa.BinOp); ok && bin.Op == token.LSS {
							if cmp, ok := core.Resolve(bin.X).(*ssa.Call); ok && core.Call(cmp).IsFunc("bytes", "Compare") {
								if z, ok := core.ConstInt(bin.Y); ok && z == 0 {
									a, b := indexParam(cmp.Call.Args[0], cl), indexParam(cmp.Call.Args[1], cl)
									if a == 0 && b == 1 && strings.Contains(strings.Join(fieldChain(cmp.Call.Args[0]), "."), "Qualifier") {
										okQ = true
									}
								}
							}
						}
					}
				}
			}
			c.Check(okQ, "R28", "b/scrubFam-qualifier-order", sf.Pos(), "columns are sorted by bytes.Compare(q[i], q[j]) < 0", "scrubFam does not sort columns in ascending bytewise qualifier order")
		}
		// (c) constructors of Family / Column
		allowedCtors := map[string]bool{"getOrCreateFamily": true, "getOrCreateColumn": true, "copyRow": true}
		nCtor := 0
		for _, fn := range P.SrcFuncs(core.PkgBttest) {
			for _, b := range fn.Blocks {
				for _, in := range b.Instrs {
					a, ok := in.(*ssa.Alloc)
					if !ok || !a.Heap {
						continue
					}
					et := a.Type().(*types.Pointer).Elem()
					if _, isNamed := types.Unalias(et).(*types.Named); !isNamed {
						continue // a cell holding a pointer, not a construction
					}
					if !core.TypeIs(et, pkgBtpb, "Family") && !core.TypeIs(et, pkgBtpb, "Column") {
						continue
					}
					nCtor++
					name := core.FuncName(core.Root(fn))
					construct := fmt.Sprintf("c/%s/new-%s", core.FuncName(fn), core.NamedOf(et).Obj().Name())
					if !allowedCtors[name] {
						// a private helper of the structural copy (copyFamily / copyColumn) copies as well
						if _, isCopyHelper := tableOrHelperOf(P, core.Root(fn), map[string]string{"copyRow": "structural copy"}); isCopyHelper {
							c.Ok("R28", construct, a.Pos(), false, "structural copy (helper of copyRow)")
							continue
						}
						c.Bad("R28", construct, a.Pos(), "a %s is constructed outside getOrCreateFamily/getOrCreateColumn/copyRow: a row can end up with the same family or qualifier twice", core.NamedOf(et).Obj().Name())
						continue
					}
					if name == "copyRow" {
						c.Ok("R28", construct, a.Pos(), false, "structural copy")
						continue
					}
					// preceded by the failed lookup
					guarded := false
					// the lookup written out inline: the construction comes after a loop over the existing
					// families / columns that returns the match from inside
					for _, lp := range rangeLoops(fn) {
						if lp.elem == nil || !(elemIs(lp.elem, "Family") || elemIs(lp.elem, "Column")) {
							continue
						}
						returnsFromLoop := false
						for _, r := range returnsIn(fn) {
							if lp.body.Dominates(r.Block()) {
								returnsFromLoop = true
							}
						}
						if returnsFromLoop && lp.header.Dominates(a.Block()) && !lp.body.Dominates(a.Block()) {
							guarded = true
						}
					}
					isLookup := func(call *ssa.Call) bool {
						sc := call.Call.StaticCallee()
						return sc != nil && (core.FuncName(sc) == "getFamily" || core.FuncName(sc) == "getColumn")
					}
					for _, f := range core.FactsAt(a.Block()) {
						// a lookup returning (x, ok): the not-ok edge
						if ex, isEx := core.Resolve(f.Cond).(*ssa.Extract); isEx && !f.Polarity && isBoolType(ex.Type()) {
							if call, isC := ex.Tuple.(*ssa.Call); isC && isLookup(call) {
								guarded = true
							}
						}
						bin, ok := f.Cond.(*ssa.BinOp)
						if !ok || !core.IsNilConst(bin.Y) {
							continue
						}
						isNil := (bin.Op == token.EQL) == f.Polarity
						src := core.Resolve(bin.X)
						if ex, isEx := src.(*ssa.Extract); isEx {
							src = ex.Tuple
						}
						if call, ok := src.(*ssa.Call); ok && isNil {
							if sc := call.Call.StaticCallee(); sc != nil && (core.FuncName(sc) == "getFamily" || core.FuncName(sc) == "getColumn") {
								guarded = true
							}
						}
					}
					c.Check(guarded, "R28", construct, a.Pos(), "constructed only on the not-found edge of the lookup", "constructed without a preceding failed lookup: duplicates of a family/qualifier become possible")
				}
			}
		}
		if nCtor < 2 {
			c.Unknown("R28", "floor/constructors", token.NoPos, "only %d Family/Column constructions found", nCtor)
		}
		// appendOrReplaceCell replaces on equal timestamp and appends only otherwise.  Structural
		// necessary conditions (independent of how the search is written — flag, index helper, …):
		// the timestamps of an existing cell and the new one are compared for equality somewhere in
		// the function or a helper it uses; the new cell is stored over an existing element; and the
		// append is conditional (some path through the function avoids it).
		if ar := P.Func(core.PkgBttest, "appendOrReplaceCell"); ar != nil {
			scope := P.Scope(ar, func(f *ssa.Function) bool { return core.PkgPathOf(f) != core.PkgBttest })
			hasEq, hasReplace, appendConditional, nAppend := false, false, true, 0
			for _, f := range scope {
				for _, b := range f.Blocks {
					for _, in := range b.Instrs {
						switch x := in.(type) {
						case *ssa.BinOp:
							if x.Op == token.EQL && P.AllOrigins(x.X, nil, isCellTs) && P.AllOrigins(x.Y, nil, isCellTs) {
								hasEq = true
							}
						case *ssa.Store:
							if _, isElem := x.Addr.(*ssa.IndexAddr); isElem && P.AllOrigins(x.Val, setOf(scope), func(o ssa.Value) bool {
								pa, isP := o.(*ssa.Parameter)
								return isP && pa.Parent() == ar
							}) {
								hasReplace = true
							}
						case *ssa.Call:
							if bi, isB := x.Call.Value.(*ssa.Builtin); isB && bi.Name() == "append" && f == ar {
								nAppend++
								// conditional: the append's block does not lie on every path to a return
								onEvery := true
								for _, r := range returnsIn(ar) {
									if r.Block() != b && !b.Dominates(r.Block()) {
										onEvery = false
									}
								}
								if onEvery {
									appendConditional = false
								}
							}
						}
					}
				}
			}
			ok := hasEq && hasReplace && appendConditional && nAppend >= 1
			c.Check(ok, "R28", "c/appendOrReplaceCell-unique-timestamp", ar.Pos(), "a cell with an equal timestamp is replaced in place; append happens only when none was found", "appendOrReplaceCell can append a second cell with the same timestamp (one cell per timestamp is lost)")
		}
	}}
}

func dedup(in []string) []string {
	seen := map[string]bool{}
	var out []string
	for _, s := range in {
		if !seen[s] {
			seen[s] = true
			out = append(out, s)
		}
	}
	sort.Strings(out)
	return out
}

// isCellTs: v is a load of Cell.TimestampMicros.
func isCellTs(v ssa.Value) bool {
	ld, ok := core.Resolve(v).(*ssa.UnOp)
	if !ok || ld.Op != token.MUL {
		return false
	}
	fa, ok := ld.X.(*ssa.FieldAddr)
	if !ok {
		return false
	}
	_, f, _ := core.FieldName(fa)
	return f == "TimestampMicros" && core.TypeIs(fa.X.Type(), pkgBtpb, "Cell")
}

// indexParam: which parameter of fn indexes the slice element v was loaded from (-1 unknown).
func indexParam(v ssa.Value, fn *ssa.Function) int {
	for i := 0; i < 10; i++ {
		v = core.Resolve(v)
		switch x := v.(type) {
		case *ssa.UnOp:
			v = x.X
		case *ssa.FieldAddr:
			v = x.X
		case *ssa.Field:
			v = x.X
		case *ssa.IndexAddr:
			idx := core.Resolve(x.Index)
			for pi, p := range fn.Params {
				if idx == ssa.Value(p) {
					return pi
				}
			}
			return -1
		default:
			return -1
		}
	}
	return -1
}

// tsComparison: fn's single boolean result is a comparison accepted by pred.
func tsComparison(fn *ssa.Function, pred func(l, r ssa.Value, op token.Token) bool) (bool, string) {
	rets := returnsIn(fn)
	if len(rets) != 1 || len(rets[0].Results) != 1 {
		return false, "not a single-expression predicate"
	}
	bin, ok := core.Resolve(rets[0].Results[0]).(*ssa.BinOp)
	if !ok {
		return false, "result is not a comparison"
	}
	if pred(bin.X, bin.Y, bin.Op) {
		return true, ""
	}
	return false, "comparison operator " + bin.Op.String()
}

// ---------------------------------------------------------------------------
// R30: who may write the row structure
// ---------------------------------------------------------------------------

func R30() Rule {
	return Rule{Name: "R30", Run: func(c *core.Ctx) {
		allowed := map[string]string{
			"applyMutations":          "the mutation applier",
			"getOrCreateFamily":       "adds a family after a failed lookup",
			"getOrCreateColumn":       "adds a column after a failed lookup",
			"scrubRow":                "drops empty / unknown families",
			"scrubFam":                "drops empty columns, sorts",
			"filterRow":               "filters a private copy / the scan's own row",
			"copyRow":                 "builds a copy",
			rpcRMW:                    "the read-modify-write loop",
			"(*table).gc":             "garbage collection",
			"(*table).getOrCreateRow": "fresh row",
		}
		n := 0
		seenFn := map[string]bool{}
		for _, fn := range c.P.SrcFuncs(core.PkgBttest) {
			for _, b := range fn.Blocks {
				for _, in := range b.Instrs {
					st, ok := in.(*ssa.Store)
					if !ok {
						continue
					}
					fa, ok := st.Addr.(*ssa.FieldAddr)
					if !ok {
						continue
					}
					_, f, _ := core.FieldName(fa)
					isRowStruct := (f == "Families" && core.TypeIs(fa.X.Type(), pkgBtpb, "Row")) ||
						(f == "Columns" && core.TypeIs(fa.X.Type(), pkgBtpb, "Family")) ||
						(f == "Cells" && core.TypeIs(fa.X.Type(), pkgBtpb, "Column"))
					if !isRowStruct {
						continue
					}
					// stores into a struct allocated right here are construction, not mutation
					if _, fresh := core.Resolve(fa.X).(*ssa.Alloc); fresh {
						continue
					}
					n++
					root := core.FuncName(core.Root(fn))
					construct := fmt.Sprintf("%s/writes-%s", root, f)
					if seenFn[construct] {
						continue
					}
					seenFn[construct] = true
					c.Fn(root)
					if why, ok := tableOrHelperOf(c.P, core.Root(fn), allowed); ok {
						c.Ok("R30", construct, st.Pos(), false, "%s", why)
					} else {
						c.Bad("R30", construct, st.Pos(), "%s edits the row structure directly: rows may only be changed through applyMutations / the read-modify-write loop (same validation and semantics for every write RPC)", root)
					}
				}
			}
		}
		if n < 5 {
			c.Unknown("R30", "floor/writes", token.NoPos, "only %d row-structure writes found", n)
		}
		// the write RPCs hand their row to the applier
		for _, name := range []string{rpcMutateRow, rpcMutateRows, rpcCAM} {
			fn := c.P.MustFunc(core.PkgBttest, name)
			applier := c.P.MustFunc(core.PkgBttest, "applyMutations")
			viaScope := scopeCallsTo(c.P.Scope(fn, func(f *ssa.Function) bool { return f == applier }), core.PkgBttest, "applyMutations")
			c.Check(len(viaScope) >= 1, "R30", name+"/uses-applier", fn.Pos(), "mutations are applied by applyMutations", "the RPC does not apply its mutations through applyMutations")
		}
	}}
}

// ---------------------------------------------------------------------------
// R31: who constructs Rows; Clear; one backend iterator per scan
// ---------------------------------------------------------------------------

func R31() Rule {
	return Rule{Name: "R31", Run: func(c *core.Ctx) {
		P := c.P
		impls := rowsImpls(P)
		isImpl := func(t types.Type) bool {
			for _, it := range impls {
				if types.Identical(it, t) {
					return true
				}
				if pt, ok := it.(*types.Pointer); ok && types.Identical(pt.Elem(), t) {
					return true
				}
			}
			return false
		}
		// Storage implementations
		pkg := P.Pkgs[core.PkgBttest]
		stIface := pkg.Types.Scope().Lookup("Storage").Type().Underlying().(*types.Interface)
		nStorages := 0
		for _, name := range pkg.Types.Scope().Names() {
			tn, ok := pkg.Types.Scope().Lookup(name).(*types.TypeName)
			if !ok || tn.IsAlias() {
				continue
			}
			if _, isI := tn.Type().Underlying().(*types.Interface); isI {
				continue
			}
			if !types.Implements(tn.Type(), stIface) && !types.Implements(types.NewPointer(tn.Type()), stIface) {
				continue
			}
			nStorages++
			for _, m := range []string{"Create", "Open"} {
				sel := P.SSA.MethodSets.MethodSet(tn.Type()).Lookup(pkg.Types, m)
				if sel == nil {
					sel = P.SSA.MethodSets.MethodSet(types.NewPointer(tn.Type())).Lookup(pkg.Types, m)
				}
				if sel == nil {
					continue
				}
				fn := P.SSA.MethodValue(sel)
				if fn == nil || fn.Blocks == nil {
					continue
				}
				c.Fn(core.FuncName(fn))
				ok := true
				n := 0
				// every returned value is one of the cross-checked implementations — directly, or as
				// the result of an in-package helper all of whose returns are
				var judge func(v ssa.Value, depth int)
				judge = func(v ssa.Value, depth int) {
					v = core.Strip(v)
					if mi, isMI := v.(*ssa.MakeInterface); isMI {
						if !isImpl(mi.X.Type()) {
							ok = false
						}
						return
					}
					if isImpl(v.Type()) {
						return
					}
					if call, isCall := core.Resolve(v).(*ssa.Call); isCall && depth < 3 {
						if callee := call.Call.StaticCallee(); callee != nil && callee.Blocks != nil && core.PkgPathOf(callee) == core.PkgBttest {
							k := 0
							for _, r := range returnsIn(callee) {
								for _, rv := range returnValues(r.Results[0]) {
									k++
									judge(rv, depth+1)
								}
							}
							if k > 0 {
								return
							}
						}
					}
					ok = false
				}
				for _, r := range returnsIn(fn) {
					for _, v := range returnValues(r.Results[0]) {
						n++
						judge(v, 0)
					}
				}
				if n == 0 {
					// only panics (Open of the in-memory storages)
					c.Ok("R31", fmt.Sprintf("constructs/%s.%s", name, m), fn.Pos(), false, "never returns (panics: not supported by this storage)")
					continue
				}
				c.Check(ok, "R31", fmt.Sprintf("constructs/%s.%s", name, m), fn.Pos(), "returns one of the cross-checked Rows implementations", "returns a Rows implementation that is not covered by the sibling cross-check")
			}
		}
		if nStorages < 3 {
			c.Unknown("R31", "floor/storages", token.NoPos, "only %d Storage implementations found", nStorages)
		}
		// Clear
		for _, t := range impls {
			fn := methodOf(P, t, "Clear")
			if fn == nil || fn.Blocks == nil {
				c.Unknown("R31", "clear/"+typeLabel(t), token.NoPos, "no Clear method")
				continue
			}
			label := typeLabel(t)
			switch label {
			case "btreeRows":
				ok := false
				for _, ci := range core.AllCalls(fn) {
					if ci.MethodOn(pkgBtree, "BTree", "Clear") {
						ok = true
					}
				}
				c.Check(ok, "R31", "clear/btreeRows", fn.Pos(), "empties the tree in place", "Clear does not empty the btree")
			case "leveldbRows":
				var closeCall, reopen ssa.Instruction
				reopenNuke := false
				// Clear together with the helpers it is split into
				clScope := P.Scope(fn, func(f *ssa.Function) bool { return core.PkgPathOf(f) != core.PkgBttest })
				clSet := setOf(clScope)
				for _, sf := range clScope {
					for _, b := range sf.Blocks {
						for _, in := range b.Instrs {
							if ci := core.Call(in); ci != nil && ci.MethodOn(pkgLdb, "DB", "Close") {
								closeCall = in
							}
							if st, ok := in.(*ssa.Store); ok {
								if fa, ok := st.Addr.(*ssa.FieldAddr); ok {
									if _, f, _ := core.FieldName(fa); f == "db" {
										if call, ok := core.Resolve(st.Val).(*ssa.Call); ok {
											for _, a := range call.Call.Args {
												if !isBoolType(a.Type()) {
													continue
												}
												if P.AllOrigins(a, clSet, func(o ssa.Value) bool { bv, isB := core.ConstBool(o); return isB && bv }) {
													reopenNuke = true
												}
											}
											reopen = st
										}
									}
								}
							}
						}
					}
				}
				ok := closeCall != nil && reopen != nil && reopenNuke && P.InterDominates(fn, closeCall, reopen, clSet)
				c.Check(ok, "R31", "clear/leveldbRows", fn.Pos(), "closes the database, then reopens it with nuke=true and stores the new handle", "Clear does not close-then-reopen(nuke=true): the table keeps its old rows or is left without a usable database")
			}
		}
		// the disk constructor removes the directory when nuke is set, before opening
		// (every function with a bool parameter that opens a leveldb directory itself: the constructor,
		// or the reopen closures when it is inlined into them)
		var openers []*ssa.Function
		for _, f := range P.SrcFuncs(core.PkgBttest) {
			hasBool := false
			for _, pa := range f.Params {
				if isBoolType(pa.Type()) {
					hasBool = true
				}
			}
			if !hasBool {
				continue
			}
			for _, ci := range core.AllCalls(f) {
				if ci.IsFunc(pkgLdb, "OpenFile") {
					openers = append(openers, f)
					break
				}
			}
		}
		for _, nd := range openers {
			var rm, open ssa.Instruction
			rmGuarded := false
			for _, ci := range core.AllCalls(nd) {
				if ci.IsFunc("os", "RemoveAll") {
					rm = ci.Instr
					for _, f := range core.FactsAt(ci.Instr.Block()) {
						if p, ok := core.Resolve(f.Cond).(*ssa.Parameter); ok && isBoolType(p.Type()) && f.Polarity {
							rmGuarded = true
						}
					}
				}
				if ci.IsFunc(pkgLdb, "OpenFile") {
					open = ci.Instr
				}
			}
			ok := rm != nil && open != nil && rmGuarded && core.InstrReaches(rm, open)
			c.Check(ok, "R31", "clear/"+core.FuncName(nd)+"-nuke", nd.Pos(), "nuke ⇒ RemoveAll(path) before OpenFile(path)", "the on-disk constructor does not wipe the directory when asked to: Clear / re-created tables keep their old rows")
		}
		// one backend iterator per range scan; ascendRange is only called by the four Ascend* methods
		if ar := P.Func(core.PkgBttest, "(*leveldbRows).ascendRange"); ar != nil {
			n := 0
			inLoop := false
			for _, ci := range core.AllCalls(ar) {
				if ci.MethodOn(pkgLdb, "DB", "NewIterator") {
					n++
					if core.ReachableFrom(ci.Instr.Block(), false)[ci.Instr.Block()] {
						inLoop = true
					}
				}
			}
			c.Check(n == 1 && !inLoop, "R31", "scan/one-iterator-per-range", ar.Pos(), "exactly one DB.NewIterator per range scan, outside the row loop", "a range scan creates several backend iterators: rows can be returned twice or skipped when the table changes in between")
			okCallers := true
			nc := 0
			for _, fn := range P.SrcFuncs(core.PkgBttest) {
				for _, ci := range core.AllCalls(fn) {
					if ci.Static == ar {
						nc++
						if !strings.HasPrefix(fn.Name(), "Ascend") {
							okCallers = false
						}
					}
				}
			}
			c.Check(okCallers && nc == 4, "R31", "scan/ascendRange-callers", ar.Pos(), "called once from each of the four Ascend* methods", "ascendRange is called from somewhere else than the four Ascend* methods")
		}
	}}
}
