package rules

import (
	"fmt"
	"go/token"
	"go/types"
	"strings"

	"golang.org/x/tools/go/ssa"

	"verif/internal/core"
)

// ---------------------------------------------------------------------------
// R63: whether a column-range / value-range bound was supplied is decided by the
// oneof case, never by the emptiness of the bound's bytes.
//
// The generated getters of a oneof member (`GetEndValueClosed()`) return the zero
// value both when the member is unset and when it is set to the empty string.
// An end bound (open or closed) and an open start bound that are explicitly empty
// are real bounds (`end_closed ""` matches only the empty value, `end_open ""`
// nothing, `start_open ""` excludes the empty value); code that asks
// `len(getter()) > 0` / `getter() != nil` to find out whether the bound is present
// treats them as absent — C05's "ranges honour open/closed/unbounded ends".
// A closed start bound is exempt: explicit "" and absent mean the same.
// Row ranges are exempt too: an empty row key is the API's way of saying unbounded.
// ---------------------------------------------------------------------------

func R63() Rule {
	return Rule{Name: "R63", Run: func(c *core.Ctx) {
		P := c.P
		if P.SPkgs[core.PkgBttest] == nil {
			return
		}
		nGetter, nSwitch := 0, 0
		for _, fn := range P.SrcFuncs(core.PkgBttest) {
			k := 0
			for _, b := range fn.Blocks {
				for _, in := range b.Instrs {
					// presence decided by the oneof case: a type assertion to a ColumnRange_/ValueRange_ wrapper
					if ta, ok := in.(*ssa.TypeAssert); ok {
						if nm := core.NamedOf(ta.AssertedType); nm != nil && protoPkgs[pkgPathOfNamed(nm)] &&
							(strings.HasPrefix(nm.Obj().Name(), "ColumnRange_") || strings.HasPrefix(nm.Obj().Name(), "ValueRange_")) {
							nSwitch++
						}
						continue
					}
					call, ok := in.(*ssa.Call)
					if !ok {
						continue
					}
					ci := core.Call(call)
					if ci == nil || ci.Static == nil || ci.Static.Signature.Recv() == nil {
						continue
					}
					rn := core.NamedOf(ci.Static.Signature.Recv().Type())
					if rn == nil || !protoPkgs[pkgPathOfNamed(rn)] || (rn.Obj().Name() != "ColumnRange" && rn.Obj().Name() != "ValueRange") {
						continue
					}
					name := ci.Static.Name()
					if !strings.HasPrefix(name, "Get") || !(strings.HasSuffix(name, "Open") || strings.HasSuffix(name, "Closed")) {
						continue
					}
					if sl, ok := call.Type().Underlying().(*types.Slice); !ok || !isByte(sl.Elem()) {
						continue
					}
					nGetter++
					k++
					c.Fn(core.FuncName(core.Root(fn)))
					construct := fmt.Sprintf("%s/%s.%s#%d", core.FuncName(core.Root(fn)), rn.Obj().Name(), name, k)
					if strings.HasPrefix(name, "GetStart") && strings.HasSuffix(name, "Closed") {
						c.Ok("R63", construct, call.Pos(), false, "closed start bound: an explicit empty bound and an absent one mean the same")
						continue
					}
					if t := emptinessTest(call, map[ssa.Value]bool{}, 0); t != nil {
						c.Bad("R63", construct, t.Pos(), "the presence of the range bound obtained with %s (at %s) is decided by the emptiness of its bytes: the getter returns the zero value both for an unset bound and for one set to the empty string, so `end_closed \"\"` / `end_open \"\"` become unbounded and `start_open \"\"` stops excluding the empty value — the oneof case (type switch on the wrapper) is what says whether the bound was supplied", name, P.Pos(call.Pos()))
					} else {
						c.Ok("R63", construct, call.Pos(), true, "the getter's bytes are only compared as a bound, never tested for emptiness")
					}
				}
			}
		}
		if nGetter == 0 {
			c.Ok("R63", "presence-by-oneof-case", token.NoPos, false, "column/value range bounds are read through the oneof wrappers only (%d case tests)", nSwitch)
		}
		if nGetter == 0 && nSwitch == 0 {
			c.Unknown("R63", "floor", token.NoPos, "neither a oneof case test nor a getter of a ColumnRange/ValueRange bound was found: the range filters are gone or unrecognisable")
		}
	}}
}

func pkgPathOfNamed(n *types.Named) string {
	if n.Obj().Pkg() == nil {
		return ""
	}
	return n.Obj().Pkg().Path()
}

func isByte(t types.Type) bool {
	b, ok := t.Underlying().(*types.Basic)
	return ok && (b.Kind() == types.Uint8 || b.Kind() == types.Byte)
}

// emptinessTest follows a []byte value forward (variables, φ, helper parameters) to a
// comparison of its length with zero or of the slice with nil.
func emptinessTest(v ssa.Value, seen map[ssa.Value]bool, depth int) ssa.Instruction {
	if depth > 6 || seen[v] {
		return nil
	}
	seen[v] = true
	for _, r := range core.Referrers(v) {
		switch x := r.(type) {
		case *ssa.Phi:
			if t := emptinessTest(x, seen, depth+1); t != nil {
				return t
			}
		case *ssa.ChangeType:
			if t := emptinessTest(x, seen, depth+1); t != nil {
				return t
			}
		case *ssa.BinOp:
			if (x.Op == token.EQL || x.Op == token.NEQ) && (core.IsNilConst(x.X) || core.IsNilConst(x.Y)) {
				return x
			}
		case *ssa.Store:
			if cell := core.CellOf(x.Addr); cell != nil && x.Val == v {
				for _, rr := range core.Referrers(cell) {
					if ld, ok := rr.(*ssa.UnOp); ok && ld.Op == token.MUL {
						if t := emptinessTest(ld, seen, depth+1); t != nil {
							return t
						}
					}
				}
			}
		case *ssa.Call:
			if b, ok := x.Call.Value.(*ssa.Builtin); ok && b.Name() == "len" {
				for _, lr := range core.Referrers(x) {
					if bin, ok := lr.(*ssa.BinOp); ok {
						other := bin.Y
						if other == ssa.Value(x) {
							other = bin.X
						}
						if n, isC := core.ConstInt(other); isC && (n == 0 || n == 1) {
							switch bin.Op {
							case token.EQL, token.NEQ, token.GTR, token.LSS, token.GEQ, token.LEQ:
								return bin
							}
						}
					}
				}
				continue
			}
			if callee := x.Call.StaticCallee(); callee != nil && callee.Blocks != nil && core.PkgPathOf(callee) == core.PkgBttest {
				for i, a := range x.Call.Args {
					if a == v && i < len(callee.Params) {
						if t := emptinessTest(callee.Params[i], seen, depth+1); t != nil {
							return t
						}
					}
				}
			}
		}
	}
	return nil
}
